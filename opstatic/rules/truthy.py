"""TRUTHY - a physical quantity whose value 0 is legitimate is never tested by truthiness.

``if not t_target``, ``if cold:``, ``t_supply and t_target``, ``x or default`` and ``all((a, b))`` treat the number 0 like a
missing value.  For a temperature (0 degC), a pinch temperature, a heat-recovery level (0 for a threshold problem) or a row
index (row 0) that silently drops or rewrites a valid input - and every test written with ordinary values keeps passing.
The repository itself tests such quantities with ``is None`` / ``isinstance`` / explicit comparisons; this rule makes that
discipline a checked obligation.  Which operands are quantities is read from the repository's naming table (t_*/T_*,
*_pinch, heat_flow, heat_recovery, *_utility_target, row/idx/loc names) and followed through local aliases
(``cold = self.cold_pinch``); differences, spans, counts, flags, collections and anything annotated as a non-number are not
quantities (an empty collection or a zero count *is* "nothing").
"""
from __future__ import annotations

import ast
from typing import Iterable, List, Optional, Tuple

from ..core.model import FuncInfo, Program
from ..core.report import CheckContext
from ..core.resolve import Resolver, body_nodes

_NOT_QUANTITY = {"span", "delta", "diff", "difference", "dt", "d", "tol", "count", "n", "num", "number", "is", "has", "do", "use", "flag",
                 "vals", "values", "list", "array", "arr", "col", "cols", "column", "columns", "name", "names", "label", "labels", "unit", "units",
                 "streams", "utilities", "mask", "valid", "type", "key", "keys", "map", "dict", "set", "size", "len", "shape", "points", "curve",
                 "profile", "profiles", "data", "table", "cc", "gcc", "str", "text", "msg", "path", "file", "sheet", "title", "description"}
_TEMP_SECOND = {"supply", "target", "min", "max", "in", "out", "hot", "cold", "h", "c", "sat", "evap", "cond", "env", "ub", "lb", "pinch", "star",
                "i", "hi", "lo", "high", "low", "source", "sink", "amb", "ambient", "turbine", "e", "co", "0", "1", "2", "3"}
_INDEX = {"row", "idx", "index", "loc", "pos", "position"}


def quantity_kind(name: str) -> Optional[str]:
    raw = [t for t in __import__("re").split(r"[\W_]+", __import__("re").sub(r"([a-z0-9])([A-Z])", r"\1_\2", name).lower()) if t]
    toks = set(raw)
    if not raw or toks & _NOT_QUANTITY:
        return None
    if raw[-1].endswith("s") and raw[-1] not in ("star", "loss") and len(raw[-1]) > 3:
        return None                                       # plural: a collection
    if toks & _INDEX:
        return "row index"
    if "pinch" in toks:
        return "pinch temperature"
    if raw[0] == "t" and len(raw) >= 2 and (set(raw[1:]) & _TEMP_SECOND):
        return "temperature"
    if toks & {"temp", "temperature"}:
        return "temperature"
    if ("heat" in toks and toks & {"flow", "recovery", "load", "duty"}) or "duty" in toks or "recovery" in toks:
        return "heat duty"
    if "utility" in toks and "target" in toks:
        return "utility target"
    return None


def _annotation_excludes(fi: FuncInfo, name: str) -> bool:
    """True if `name` is a parameter annotated with a type that is not a number"""
    for a in fi.params:
        if a.arg == name and a.annotation is not None:
            txt = ast.unparse(a.annotation)
            if not any(k in txt for k in ("float", "int", "Value", "Number", "Real", "Any")):
                return True
    return False


_CONTAINERS = (ast.Dict, ast.List, ast.Set, ast.Tuple, ast.ListComp, ast.DictComp, ast.SetComp, ast.GeneratorExp, ast.JoinedStr)


def _bound_to_container(fi: FuncInfo, name: str) -> bool:
    """some assignment in the function binds the name to a literal container / string: it is not a scalar quantity"""
    for n in body_nodes(fi):
        if isinstance(n, ast.Assign) and any(isinstance(t, ast.Name) and t.id == name for t in n.targets):
            v = n.value
            if isinstance(v, _CONTAINERS) or (isinstance(v, ast.Constant) and isinstance(v.value, (str, bytes, bool))) \
                    or (isinstance(v, ast.Call) and isinstance(v.func, ast.Name) and v.func.id in ("dict", "list", "set", "tuple", "str", "sorted")):
                return True
    return False


def _is_unit_payload(fi: FuncInfo, base: ast.AST) -> bool:
    """is `base` a parameter declared to (possibly) hold a ValueWithUnit payload?"""
    if not isinstance(base, ast.Name) or isinstance(fi.node, ast.Lambda):
        return False
    for a in fi.params:
        if a.arg == base.id and a.annotation is not None and "ValueWithUnit" in ast.unparse(a.annotation):
            return True
    return False


def _quantity_of(fi: FuncInfo, e: ast.AST, depth: int = 0) -> Optional[Tuple[str, str]]:
    """(kind, how we know) if the expression denotes a zero-is-legitimate quantity"""
    if isinstance(e, ast.Call) and isinstance(e.func, ast.Name) and e.func.id in ("getattr", "float", "abs", "bool", "get_value", "round", "int") and e.args:
        return _quantity_of(fi, e.args[0], depth)
    if isinstance(e, ast.Attribute):
        if e.attr == "value" and _is_unit_payload(fi, e.value):
            return "input magnitude (a temperature, duty, price or coefficient)", "the .value of a value-with-unit payload"
        k = quantity_kind(e.attr.lstrip("_"))
        return (k, f"attribute '{e.attr}'") if k else None
    if isinstance(e, ast.Subscript) and isinstance(e.slice, ast.Constant) and isinstance(e.slice.value, str):
        if e.slice.value == "value" and _is_unit_payload(fi, e.value):
            return "input magnitude (a temperature, duty, price or coefficient)", "the 'value' entry of a value-with-unit payload"
        k = quantity_kind(e.slice.value)
        return (k, f"entry {e.slice.value!r}") if k else None
    if isinstance(e, ast.IfExp):
        qs = [_quantity_of(fi, b, depth) for b in (e.body, e.orelse) if not (isinstance(b, ast.Constant) and b.value is None)]
        return qs[0] if qs and all(q is not None for q in qs) else None
    if isinstance(e, ast.Name):
        if _annotation_excludes(fi, e.id) or _bound_to_container(fi, e.id):
            return None
        k = quantity_kind(e.id)
        if k:
            return k, f"name '{e.id}'"
        if depth >= 3:
            return None
        # a local alias of a quantity: every assignment to the name binds a quantity (or None)
        rhs: List[ast.AST] = []
        for n in body_nodes(fi):
            if isinstance(n, ast.Assign):
                for t in n.targets:
                    if isinstance(t, ast.Name) and t.id == e.id:
                        rhs.append(n.value)
                    elif isinstance(t, (ast.Tuple, ast.List)) and any(isinstance(x, ast.Name) and x.id == e.id for x in t.elts):
                        if isinstance(n.value, (ast.Tuple, ast.List)) and len(n.value.elts) == len(t.elts):
                            rhs += [v for x, v in zip(t.elts, n.value.elts) if isinstance(x, ast.Name) and x.id == e.id]
                        else:
                            return None
            elif isinstance(n, (ast.AugAssign, ast.AnnAssign)) and isinstance(n.target, ast.Name) and n.target.id == e.id:
                if isinstance(n, ast.AnnAssign) and n.value is not None:
                    rhs.append(n.value)
                else:
                    return None
            elif isinstance(n, (ast.For, ast.comprehension)) and any(isinstance(x, ast.Name) and x.id == e.id for x in ast.walk(n.target)):
                return None
        found = None
        for v in rhs:
            if isinstance(v, ast.Constant) and v.value is None:
                continue
            q = _quantity_of(fi, v, depth + 1)
            if q is None:
                return None
            found = q
        if found:
            return found[0], f"local '{e.id}' bound to {found[1]}"
    return None


def _operands(test: ast.AST) -> Iterable[ast.AST]:
    """sub-expressions evaluated for truth"""
    if isinstance(test, ast.BoolOp):
        for v in test.values:
            yield from _operands(v)
    elif isinstance(test, ast.UnaryOp) and isinstance(test.op, ast.Not):
        yield from _operands(test.operand)
    elif isinstance(test, ast.Call) and isinstance(test.func, ast.Name) and test.func.id in ("all", "any") and len(test.args) == 1 \
            and isinstance(test.args[0], (ast.Tuple, ast.List)):
        for x in test.args[0].elts:
            yield from _operands(x)
    elif isinstance(test, ast.Call) and isinstance(test.func, ast.Name) and test.func.id == "bool" and len(test.args) == 1:
        yield from _operands(test.args[0])
    elif isinstance(test, (ast.Name, ast.Attribute, ast.Subscript)):
        yield test
    elif isinstance(test, ast.Call) and isinstance(test.func, ast.Name) and test.func.id in ("get_value", "float", "getattr") and test.args:
        yield test
    elif isinstance(test, ast.NamedExpr):
        yield from _operands(test.value)


def _truth_contexts(fi: FuncInfo) -> Iterable[Tuple[ast.AST, ast.AST]]:
    for n in body_nodes(fi):
        if isinstance(n, (ast.If, ast.While, ast.IfExp, ast.Assert)):
            yield n, n.test
        elif isinstance(n, ast.comprehension):
            for t in n.ifs:
                yield t, t
        elif isinstance(n, ast.BoolOp):
            # every operand but the last of `a or b` / `a and b` is tested for truth wherever the expression stands
            for v in n.values[:-1]:
                yield n, v
        elif isinstance(n, ast.UnaryOp) and isinstance(n.op, ast.Not):
            yield n, n.operand
        elif isinstance(n, ast.Call) and isinstance(n.func, ast.Name) and n.func.id in ("all", "any", "bool"):
            yield n, n


def check_truthiness(ctx: CheckContext, p: Program, r: Resolver, funcs: List[FuncInfo], rule: str = "TRUTHY") -> int:
    ctx.rule(rule, "no temperature, pinch temperature, heat duty / recovery level, utility target or row index is tested by truthiness "
                   "(if x / not x / x and y / x or default / all((..)) ): 0 is a legitimate value of each and would be treated as missing; "
                   "quantities are recognised from the repository's naming table and followed through local aliases")
    n = 0
    seen = set()
    for f in funcs:
        if isinstance(f.node, ast.Lambda):
            continue
        for node, test in _truth_contexts(f):
            for op in _operands(test):
                q = _quantity_of(f, op)
                key = f"{f.qualname}:truth-test:{ast.unparse(op)}"
                if key in seen:
                    continue
                seen.add(key)
                n += 1
                ctx.ob(rule, key, f"{f.module.relpath}:{getattr(node, 'lineno', f.node.lineno)}", q is None,
                       "" if q is None else
                       f"`{ast.unparse(op)}` is a {q[0]} ({q[1]}) and is tested for truth in `{ast.unparse(test)[:90]}`: the legitimate value 0 "
                       f"is handled as if the quantity were missing")
    return n


# --------------------------------------------------------------------------------------------------------------------------
# ZERO-CMP: a temperature is never compared with the literal 0
# --------------------------------------------------------------------------------------------------------------------------

_ARRAY_WORDS = {"vals", "values", "arr", "array", "col", "column", "list", "grid", "levels", "points"}


def _temperature_operand(fi: FuncInfo, e: ast.AST) -> Optional[str]:
    """how we know that `e` is an absolute temperature (a scalar, or an array / column of temperatures); None if it is not provably one"""
    if isinstance(e, ast.Call) and isinstance(e.func, ast.Name) and e.func.id in ("float", "get_value", "getattr", "round") and e.args:
        return _temperature_operand(fi, e.args[0])
    if isinstance(e, ast.Call) and isinstance(e.func, ast.Attribute) and e.func.attr in ("to_numpy", "to_list", "tolist", "copy", "astype", "min", "max") \
            and not e.args:
        return _temperature_operand(fi, e.func.value)
    if isinstance(e, ast.Call) and isinstance(e.func, ast.Attribute) and isinstance(e.func.value, ast.Name) and e.func.value.id in ("np", "numpy") \
            and e.func.attr in ("asarray", "array", "min", "max", "amin", "amax") and e.args:
        return _temperature_operand(fi, e.args[0])
    # table column  X.col[PT.T.value] / X[PT.T.value] / X.loc[i, PT.T.value] / X["T"]
    if isinstance(e, ast.Subscript):
        sl = e.slice.elts[-1] if isinstance(e.slice, ast.Tuple) and e.slice.elts else e.slice
        txt = ast.unparse(sl)
        if txt in ("PT.T.value", "ProblemTableLabel.T.value", "PT.T", "'T'"):
            return f"temperature column `{ast.unparse(e)[:60]}`"
    if isinstance(e, (ast.Name, ast.Attribute)):
        name = e.id if isinstance(e, ast.Name) else e.attr.lstrip("_")
        if isinstance(e, ast.Name) and (_annotation_excludes(fi, name) and not any(
                a.arg == name and a.annotation is not None and any(k in ast.unparse(a.annotation) for k in ("ndarray", "List", "list", "Sequence", "Iterable"))
                for a in fi.params)):
            return None
        raw = [t for t in __import__("re").split(r"[\W_]+", __import__("re").sub(r"([a-z0-9])([A-Z])", r"\1_\2", name).lower()) if t]
        if not raw:
            return None
        toks = set(raw)
        if toks & {"dt", "delta", "diff", "difference", "span", "tol", "lift", "approach", "glide", "n", "num", "count", "idx", "index", "row", "mask"}:
            return None
        if raw[0] == "t" and len(raw) >= 2 and (set(raw[1:]) <= _ARRAY_WORDS | _TEMP_SECOND) and (set(raw[1:]) & _ARRAY_WORDS):
            return f"array of temperatures '{name}'"
        if toks & {"temps", "temperatures"}:
            return f"array of temperatures '{name}'"
    q = _quantity_of(fi, e) if isinstance(e, (ast.Name, ast.Attribute, ast.Subscript)) else None
    if q and q[0] in ("temperature", "pinch temperature"):
        return f"{q[0]} ({q[1]})"
    return None


def _is_zero(e: ast.AST) -> bool:
    if isinstance(e, ast.UnaryOp) and isinstance(e.op, (ast.USub, ast.UAdd)):
        return _is_zero(e.operand)
    return isinstance(e, ast.Constant) and not isinstance(e.value, bool) and isinstance(e.value, (int, float)) and e.value == 0


def check_zero_compare(ctx: CheckContext, p: Program, r: Resolver, funcs: List[FuncInfo], rule: str = "ZERO-CMP") -> int:
    ctx.rule(rule, "no absolute temperature (scalar, array or table column; differences, lifts and spans excluded) is compared with the literal 0: "
                   "0 degC has no special role on the temperature axis, so such a test silently filters or re-routes sub-zero (or translated) problems; "
                   "one obligation per comparison that has a literal 0 on one side")
    n = 0
    seen = set()
    for f in funcs:
        if isinstance(f.node, ast.Lambda):
            continue
        for node in body_nodes(f):
            if not isinstance(node, ast.Compare):
                continue
            chain = [node.left] + list(node.comparators)
            for a, op, b in zip(chain, node.ops, chain[1:]):
                if not isinstance(op, (ast.Lt, ast.LtE, ast.Gt, ast.GtE, ast.Eq, ast.NotEq)):
                    continue
                other = b if _is_zero(a) else a if _is_zero(b) else None
                if other is None or _is_zero(other):
                    continue
                key = f"{f.qualname}:zero-compare:{ast.unparse(other)}"
                if key in seen:
                    continue
                seen.add(key)
                how = _temperature_operand(f, other)
                n += 1
                ctx.ob(rule, key, f"{f.module.relpath}:{node.lineno}", how is None,
                       "" if how is None else
                       f"`{ast.unparse(node)[:90]}` compares a {how} with the literal 0: temperatures at or below 0 degC are legitimate and are "
                       f"filtered / re-routed by this test")
    return n

"""C11 - analysis is a pure function of its input: no state-carrying construct (EFFECT E1-E3)."""
from ..core.model import Program
from ..core.report import CheckContext
from ..core.resolve import Resolver
from ..rules import effect
from .common import run_control, generic_rules


def analyse(ctx: CheckContext, p: Program):
    r = Resolver(p)
    ctx.guard(generic_rules, ctx, p, r, "C11", extra_modules=("OpenPinch/utils/export.py",))
    cone = r.pipeline_cone()
    ctx.info["pipeline_cone_functions"] = len(cone)
    pe = effect.ParamEffects(p, r)
    ctx.guard(effect.check_mutable_defaults, ctx, p, r, pe)
    ctx.guard(effect.check_module_state, ctx, p, r, cone)
    ctx.guard(effect.check_caller_input, ctx, p, r)


def run(ctx: CheckContext):
    p = Program()
    analyse(ctx, p)
    ctx.floor("E1", 4)
    ctx.floor("E2", 10)
    ctx.floor("E3", 3)
    ctx.assumptions += [
        "numpy / pydantic / CoolProp are deterministic and keep no cross-call state that affects results",
        "pydantic copies field defaults per instance; model_validate may return its argument or a model holding the caller's nested models",
        "bit-exact equality with a fresh interpreter is not decided; the absence of every construct that can carry state between calls is",
    ]
    run_control(ctx, "C11/mutable-default-accumulator", analyse, p.root, "OpenPinch/analysis/graph_data.py",
                "graph_sets: dict = None) -> dict:", "graph_sets: dict = {}) -> dict:", "E1")
    run_control(ctx, "C11/no-deep-copy-of-request", analyse, p.root, "OpenPinch/main.py",
                "TargetInput.model_validate(data).model_copy(deep=True)", "TargetInput.model_validate(data)", "E3")
    run_control(ctx, "C11/shallow-copy-of-request", analyse, p.root, "OpenPinch/main.py",
                "TargetInput.model_validate(data).model_copy(deep=True)", "TargetInput.model_validate(data).model_copy()", "E3")
    run_control(ctx, "C11/before-validator-writes-raw-input", analyse, p.root, "OpenPinch/lib/schema.py",
                '    """Process stream definition supplied to the targeting service."""\n',
                '    """Process stream definition supplied to the targeting service."""\n\n    @model_validator(mode="before")\n    @classmethod\n'
                '    def _tidy(cls, data):\n        if isinstance(data, dict):\n            data["zone"] = str(data.get("zone")).strip()\n        return data\n', "E3")
    run_control(ctx, "C11/module-dict-written", analyse, p.root, "OpenPinch/main.py",
                "    handler = _TARGET_HANDLERS.get(master_zone.identifier)\n", "    handler = _TARGET_HANDLERS.get(master_zone.identifier)\n    _TARGET_HANDLERS[\"last\"] = handler\n", "E2")
    run_control(ctx, "C11/class-list-appended", analyse, p.root, "OpenPinch/analysis/data_preparation.py",
                "    if zone_config.DT_CONT < 0:\n", "    zone_config.REFRIGERANTS.append(\"r134a\")\n    if zone_config.DT_CONT < 0:\n", "E2")

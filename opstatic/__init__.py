"""opstatic - repository-specific static analysis of OpenPinch for properties C01..C20.

Nothing in the analysed repository is imported or executed; all verdicts come
from the syntax trees of the current working tree under the repository root."""

#!/venv/bin/python
"""Run every registered check against every behaviour-preserving refactoring under seeded/twins/.
Any exit status other than 0 is a false alarm (1) or a broken check (2) on code where the property holds."""
import concurrent.futures as cf, glob, json, os, shutil, subprocess, sys, tempfile
VERIF = os.path.dirname(os.path.dirname(os.path.abspath(__file__)))
sys.path.insert(0, VERIF)

def run_one(args):
    sid, patch, props = args
    root = tempfile.mkdtemp(prefix=f"twinrun_{sid}_", dir="/tmp")
    try:
        shutil.copytree("/repo/OpenPinch", os.path.join(root, "OpenPinch"), ignore=shutil.ignore_patterns("__pycache__"))
        p = subprocess.run(["git", "apply", "--unsafe-paths", f"--directory={root}", patch], cwd=root, capture_output=True, text=True)
        if p.returncode != 0:
            return sid, None, "patch failed: " + p.stderr[-200:]
        res = {}
        for prop in props:
            env = dict(os.environ, OPSTATIC_REPO=root, OPSTATIC_EVIDENCE_DIR=os.path.join(root, "_ev"))
            q = subprocess.run([os.path.join(VERIF, "check"), prop, "--tier", "quick"], capture_output=True, text=True, env=env, cwd=VERIF)
            if q.returncode != 0:
                lines = [l for l in q.stdout.splitlines() if l.startswith("ANALYSIS-ERROR") or ("[" in l and "]" in l and not l.startswith(("VIOLATION", "[C", "KNOWN")))]
                res[prop] = (q.returncode, [l.strip()[:260] for l in lines[:3]])
        return sid, res, ""
    finally:
        shutil.rmtree(root, ignore_errors=True)

def main():
    from opstatic.registry import CLAIMED
    props = sorted(CLAIMED)
    only = set(sys.argv[1:])
    jobs = [(os.path.basename(os.path.dirname(d)), d, props) for d in sorted(glob.glob(os.path.join(VERIF, "seeded", "twins", "*", "patch.diff")))]
    if only:
        jobs = [j for j in jobs if j[0] in only or j[0].split("-")[0] in only]
    silent = []
    with cf.ProcessPoolExecutor(max_workers=16) as ex:
        for sid, res, err in ex.map(run_one, jobs):
            if res is None:
                print(f"{sid:10s} ERROR {err}"); continue
            if not res:
                silent.append(sid); print(f"{sid:10s} silent"); continue
            for prop, (rc, lines) in res.items():
                print(f"{sid:10s} {'FALSE-ALARM' if rc == 1 else 'ANALYSIS-ERROR'} in {prop}")
                for l in lines: print("            ", l)
    if not only:
        exp_path = os.path.join(VERIF, "seeded", "EXPECTED.json")
        exp = json.load(open(exp_path)) if os.path.exists(exp_path) else {"digest": None, "caught_by": {}}
        exp["twins_silent"] = sorted(silent)
        json.dump(exp, open(exp_path, "w"), indent=1, sort_keys=True)
        print(f"{len(silent)}/{len(jobs)} twins silent in every check")
if __name__ == "__main__":
    main()

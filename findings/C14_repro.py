"""Reproduces the three known C14 findings against the real code (run: cd /repo && /venv/bin/python /verif/findings/C14_repro.py).
Each case is a schema-valid problem; the service raises instead of returning a result."""
import sys
sys.path.insert(0, ".")
from OpenPinch.main import pinch_analysis_service

def streams(zone_a="A", zone_b="B"):
    return [
        {"zone": zone_a, "name": "H1", "t_supply": 200.0, "t_target": 80.0, "heat_flow": 1200.0, "dt_cont": 5.0, "htc": 1.0},
        {"zone": zone_b, "name": "C1", "t_supply": 40.0, "t_target": 160.0, "heat_flow": 1500.0, "dt_cont": 5.0, "htc": 1.0},
    ]

cases = {
    "ORDER indirect-before-direct (DO_INDIRECT_PROCESS_TARGETING=True)":
        {"streams": streams(), "utilities": [], "options": {"DO_INDIRECT_PROCESS_TARGETING": True}},
    "ORDER unit-operation child without Direct Integration under a site (default options, zone tree Site>Site>Zone)":
        {"streams": streams("U1", "U1"), "utilities": [], "options": {},
         "zone_tree": {"name": "Top", "type": "Site", "children": [{"name": "Inner", "type": "Site", "children": [{"name": "U1", "type": "Zone"}]}]}},
    "ATTR turbine options undeclared (DO_TURBINE_WORK=True)":
        {"streams": streams(), "utilities": [], "options": {"DO_TURBINE_WORK": True}},
}
bad = 0
for name, data in cases.items():
    try:
        pinch_analysis_service(data)
        print("no exception:", name)
    except Exception as e:
        bad += 1
        print(f"RAISES {type(e).__name__}: {e!s:.80}  <-  {name}")
sys.exit(0 if bad == len(cases) else 1)

"""OWN - per-zone utility ownership (C10) and QEFFECT - query methods do not disturb solve state (C18)."""
from __future__ import annotations

import ast
from typing import Dict, List, Optional, Set, Tuple

from ..core.flow import Flow
from ..core.model import AnalysisError, ClassInfo, FuncInfo, Program
from ..core.report import CheckContext, norm_stmt
from ..core.resolve import Resolver, body_nodes
from .classflow import field_writes_in_stmt, self_attr, self_calls_in, self_name

UTILITY_PROPS = ("hot_utilities", "cold_utilities")


def _is_deepcopy(r: Resolver, f: FuncInfo, e: ast.AST) -> bool:
    if isinstance(e, ast.Call):
        if any(t == "ext:copy.deepcopy" for t in r.resolve_call(f, e) if isinstance(t, str)):
            return True
        # an injected cloner whose default IS copy.deepcopy:  def f(..., clone=copy.deepcopy): ... clone(x)
        if isinstance(e.func, ast.Name) and e.func.id in [a.arg for a in f.params]:
            d = f.default_of(e.func.id)
            if d is not None:
                b = r.resolve_static(f, f.module, d) if isinstance(d, (ast.Name, ast.Attribute)) else None
                if b is not None and b.kind == "ext" and str(b.target).endswith("copy.deepcopy"):
                    return True
    return False


def _sharing_verdict(r: Resolver, f: FuncInfo, e: ast.AST) -> Optional[bool]:
    """True: the value is certainly shared with its source (the object itself, or a shallow copy whose members are the same utility objects);
    None: produced by a call this rule does not interpret (undecided)."""
    if isinstance(e, (ast.Name, ast.Attribute, ast.Subscript)):
        return True
    if isinstance(e, ast.Call):
        tg = r.resolve_call(f, e)
        if any(isinstance(t, str) and t in ("ext:copy.copy",) for t in tg):
            return True
        if isinstance(e.func, ast.Name) and e.func.id in ("list", "tuple", "dict", "set", "sorted") and e.args:
            return True
        if isinstance(e.func, ast.Attribute) and e.func.attr == "copy" and not e.args:
            return True
        return None
    if isinstance(e, (ast.List, ast.Tuple, ast.ListComp, ast.GeneratorExp)):
        return True
    return None


def _fresh_collection(r: Resolver, f: FuncInfo, e: ast.AST) -> bool:
    if isinstance(e, ast.Call):
        for t in r.resolve_call(f, e):
            if isinstance(t, ClassInfo) and t.name == "StreamCollection" and not e.args:
                return True
    return False


def check_utility_ownership(ctx: CheckContext, p: Program, r: Resolver, cone: List[FuncInfo], rule: str = "OWN"):
    ctx.rule(rule, "every value inserted into, or assigned to, a zone's hot_utilities / cold_utilities is the result of copy.deepcopy evaluated in the per-zone "
                   "function (or a fresh empty collection); shallow copies, hoisted copies and shared collections are violations")
    zone_cls = p.find_class("Zone")
    if zone_cls is None:
        raise AnalysisError("Zone not found")
    n = 0
    for f in cone:
        if isinstance(f.node, ast.Lambda) or f.cls is zone_cls:
            continue
        local_copies: Dict[str, ast.AST] = {}
        for st in body_nodes(f):
            if isinstance(st, ast.Assign) and len(st.targets) == 1 and isinstance(st.targets[0], ast.Name) and _is_deepcopy(r, f, st.value):
                local_copies[st.targets[0].id] = st
        # a local deep copy may be handed to exactly one collection, and not from inside a loop it was made outside of
        def _loops_of(node):
            out = []
            def walk(cur, loops):
                if cur is node:
                    out.extend(loops)
                    return True
                for ch in ast.iter_child_nodes(cur):
                    if isinstance(ch, (ast.FunctionDef, ast.AsyncFunctionDef, ast.ClassDef)):
                        continue
                    if walk(ch, loops + [cur] if isinstance(cur, (ast.For, ast.While)) else loops):
                        return True
                return False
            walk(f.node, [])
            return out
        copy_uses: Dict[str, List[ast.AST]] = {}
        for st in body_nodes(f):
            if isinstance(st, ast.Call) and isinstance(st.func, ast.Attribute) and st.func.attr in ("add_many", "add", "replace") \
                    and isinstance(st.func.value, ast.Attribute) and st.func.value.attr in UTILITY_PROPS and st.args and isinstance(st.args[0], ast.Name) \
                    and st.args[0].id in local_copies:
                copy_uses.setdefault(st.args[0].id, []).append(st)
        shared_copy = set()
        for cname, uses in copy_uses.items():
            made_in = [id(x) for x in _loops_of(local_copies[cname])]
            for u in uses:
                if len(uses) > 1 or any(id(lp) not in made_in for lp in _loops_of(u)):
                    shared_copy.add(id(u))
        for st in body_nodes(f):
            # insertion:  <zone>.hot_utilities.add_many(X) / .add(X)
            if isinstance(st, ast.Call) and isinstance(st.func, ast.Attribute) and st.func.attr in ("add_many", "add", "replace") \
                    and isinstance(st.func.value, ast.Attribute) and st.func.value.attr in UTILITY_PROPS:
                recv = st.func.value.value
                t = r.type_of(f, recv)
                if t is not None and t is not zone_cls:
                    continue
                if not st.args:
                    continue
                n += 1
                a = st.args[0]
                ok = _is_deepcopy(r, f, a) or (isinstance(a, ast.Name) and a.id in local_copies
                                               and sum(1 for x in body_nodes(f) if isinstance(x, ast.Assign) and any(isinstance(t, ast.Name) and t.id == a.id for t in x.targets)) == 1)
                why = ""
                if ok and id(st) in shared_copy:
                    ok = False
                    why = (f"the one deep copy '{a.id}' is inserted into several zones' collections (or from inside a loop it was made outside of): "
                           "those zones share utility objects")
                if not ok and not why:
                    if _sharing_verdict(r, f, a) is None:
                        ctx.info.setdefault("own_undecided", []).append(f"{f.qualname}: {ast.unparse(a)[:60]} is produced by a call this rule does not interpret")
                        continue
                    why = (f"{ast.unparse(st.func.value)} receives {ast.unparse(a)}, which is not a deep copy made here: "
                           "zones would share utility objects, so duties assigned in one zone appear in another")
                ctx.ob(rule, f"{f.qualname}:{norm_stmt(st)}", f"{f.module.relpath}:{st.lineno}", ok, why)
            # assignment:  <zone>.hot_utilities = X
            if isinstance(st, ast.Assign):
                for tg in st.targets:
                    if isinstance(tg, ast.Attribute) and tg.attr in UTILITY_PROPS:
                        t = r.type_of(f, tg.value)
                        if t is not None and t is not zone_cls:
                            continue
                        if t is None and not (isinstance(tg.value, ast.Name) and "zone" in tg.value.id.lower()):
                            continue
                        n += 1
                        v = st.value
                        ok = _is_deepcopy(r, f, v) or _fresh_collection(r, f, v) or (isinstance(v, ast.Name) and v.id in local_copies)
                        if not ok and _sharing_verdict(r, f, v) is None:
                            ctx.info.setdefault("own_undecided", []).append(f"{f.qualname}: {ast.unparse(v)[:60]} is produced by a call this rule does not interpret")
                            continue
                        ctx.ob(rule, f"{f.qualname}:{norm_stmt(st)}", f"{f.module.relpath}:{st.lineno}", ok,
                               "" if ok else f"{ast.unparse(tg)} is bound to {ast.unparse(v)}, a collection that another zone also holds")
    # target records derived from a zone's utilities by summation/matching must work on copies
    for qn in ("OpenPinch.analysis.indirect_integration_entry:_sum_subzone_targets", "OpenPinch.analysis.indirect_integration_entry:compute_indirect_integration_targets"):
        f = p.func(qn)
        if f is None:
            raise AnalysisError(f"{qn} not found")
        for st in body_nodes(f):
            if isinstance(st, ast.Assign) and len(st.targets) == 1 and isinstance(st.targets[0], ast.Name) and st.targets[0].id in UTILITY_PROPS:
                v = st.value
                if isinstance(v, ast.Call) and any(isinstance(x, ast.Attribute) and x.attr in UTILITY_PROPS for x in ast.walk(v)) or \
                        (isinstance(v, ast.Attribute) and v.attr in UTILITY_PROPS):
                    n += 1
                    ok = _is_deepcopy(r, f, v)
                    if not ok and _sharing_verdict(r, f, v) is None:
                        ctx.info.setdefault("own_undecided", []).append(f"{f.qualname}: {ast.unparse(v)[:60]} is produced by a call this rule does not interpret")
                        continue
                    ctx.ob(rule, f"{f.qualname}:{norm_stmt(st)}", f"{f.module.relpath}:{st.lineno}", ok,
                           "" if ok else f"{f.name} accumulates / nets duties on {ast.unparse(v)} itself instead of a deep copy: the zone's own utilities are overwritten")
    return n


# =========================================================================================
class _ScratchFlow(Flow):
    """must-fact: the scratch property object was updated in this function since entry."""

    def __init__(self, f: FuncInfo, me: str, scratch: str, ctx: CheckContext, rule: str, ci: ClassInfo, updating: Set[str]):
        self.f, self.me, self.scratch, self.ctx, self.rule, self.ci, self.updating = f, me, scratch, ctx, rule, ci, updating
        self.reads = 0

    def copy(self, s):
        return s

    def join(self, a, b):
        return a and b

    def _apply(self, node, s):
        # order within a statement: calls that update come first only if they are the statement itself
        upd = False
        for n in ast.walk(node):
            if isinstance(n, ast.Call) and isinstance(n.func, ast.Attribute):
                base = n.func.value
                if self_attr(base, self.me) == self.scratch:
                    if n.func.attr == "update":
                        upd = True
                    else:
                        self.reads += 1
                        if not (s or upd):
                            self.ctx.ob(self.rule, f"{self.f.qualname}:{norm_stmt(n)}", f"{self.f.module.relpath}:{n.lineno}", False,
                                        f"{self.ci.name}.{self.f.name} reads the scratch property object self.{self.scratch} "
                                        f"(.{n.func.attr}()) without updating it first in this method: the value depends on which method ran before")
                elif isinstance(base, ast.Name) and base.id == self.me and n.func.attr in self.updating:
                    upd = True
        return s or upd

    def transfer(self, st, s):
        if isinstance(st, (ast.FunctionDef, ast.AsyncFunctionDef, ast.ClassDef)):
            return s
        return self._apply(st, s)

    def branch(self, test, s):
        s = self._apply(test, s)
        return s, s

    def bind_loop_target(self, node, s):
        return self._apply(node.iter, s)


def check_query_effects(ctx: CheckContext, p: Program, r: Resolver, ci: ClassInfo, solve_name: str = "solve", scratch: Optional[str] = "_state", rule: str = "QEFFECT"):
    ctx.rule(rule, "no public query method (anything but solve, __init__ and property setters), nor any helper or nested function it reaches, assigns an instance "
                   "field; the scratch property object is re-updated in a method before that method reads it")
    solve = ci.methods.get(solve_name)
    if solve is None:
        raise AnalysisError(f"{ci.name}.{solve_name} not found")

    def reach(f: FuncInfo) -> List[FuncInfo]:
        seen, out, stack = set(), [], [f]
        while stack:
            g = stack.pop()
            if g in seen:
                continue
            seen.add(g)
            out.append(g)
            me = self_name(g)
            for nf in g.nested.values():
                stack.append(nf)
            if me:
                for (callee, _) in self_calls_in(g.node, me):
                    if callee in ci.methods:
                        stack.append(ci.methods[callee])
                # property reads self.X where X is a property
                for n in body_nodes(g):
                    a = self_attr(n, me)
                    if a and a in ci.methods and ci.methods[a].is_property:
                        stack.append(ci.methods[a])
        return out

    solve_fields: Set[str] = set()
    for g in reach(solve):
        me = self_name(g)
        if me:
            for st in body_nodes(g):
                if isinstance(st, ast.stmt):
                    for (fld, how, _) in field_writes_in_stmt(st, me):
                        solve_fields.add(fld)
    ctx.info.setdefault("solve_state_fields", {})[ci.name] = sorted(solve_fields)
    queries = [(nm, f) for nm, f in ci.methods.items() if not nm.startswith("_") and nm != solve_name]
    nq = 0
    for nm, f in queries:
        nq += 1
        bad = []
        for g in reach(f):
            me = self_name(g)
            if not me:
                continue
            for st in body_nodes(g):
                if isinstance(st, ast.stmt):
                    for (fld, how, n) in field_writes_in_stmt(st, me):
                        if how in ("assign", "augassign", "subscript-store", "delete"):
                            bad.append((g, st, fld))
        ok = not bad
        msg = ""
        if bad:
            g, st, fld = bad[0]
            msg = (f"query {ci.name}.{nm} reaches `{norm_stmt(st)}` ({g.module.relpath}:{st.lineno}), which assigns self.{fld}"
                   + (" - a field of the solved state" if fld in solve_fields else "")
                   + ": what one request returns then depends on which requests were made before")
        ctx.ob(rule, f"{f.qualname}", f.loc, ok, msg)
    if scratch:
        # only methods of the query side (not reachable from solve): solve's helpers legitimately read what the previous helper just set
        solve_side = set(reach(solve))
        query_side: List[FuncInfo] = []
        for nm, f in queries:
            for g in reach(f):
                if g not in solve_side and g not in query_side:
                    query_side.append(g)
        # helpers of the solve side that update the scratch object before returning count as an update when called
        updating = set()
        for nm, f in ci.methods.items():
            me = self_name(f)
            if me and any(isinstance(n, ast.Call) and isinstance(n.func, ast.Attribute) and n.func.attr == "update" and self_attr(n.func.value, me) == scratch
                          for n in body_nodes(f)):
                updating.add(nm)
        for f in query_side:
            me = self_name(f)
            if me is None:
                continue
            if not any(self_attr(n, me) == scratch for n in body_nodes(f)):
                continue
            fl = _ScratchFlow(f, me, scratch, ctx, rule + "-SCRATCH", ci, updating)
            fl.run(f.node, False)
            if fl.reads and not any(o.key.startswith(f.qualname + ":") and o.rule == rule + "-SCRATCH" and not o.ok for o in ctx.obligations):
                ctx.ob(rule + "-SCRATCH", f"{f.qualname}", f.loc, True, f"{fl.reads} scratch read(s), each after an update in the same method")
    return nq


def check_every_zone_served(ctx: CheckContext, p: Program, r: Resolver, cone: List[FuncInfo], rule: str = "OWN-ALL"):
    """The function that hands a zone its utilities and descends into the sub-zones does so for EVERY zone: no return stands before the hand-over and the
    descent.  ("every zone receives its own independent copy of every utility" - an 'optimisation' that skips empty zones leaves their subtree without.)"""
    ctx.rule(rule, "in the recursive utility hand-over (stores into <zone>.hot_utilities / cold_utilities + self-call over <zone>.subzones) no return precedes the "
                   "hand-over or the descent")
    n = 0
    for f in cone:
        if isinstance(f.node, ast.Lambda) or not f.pos_params:
            continue
        zp = f.pos_params[0]
        nodes = body_nodes(f)
        hand = [c for c in nodes if isinstance(c, ast.Call) and isinstance(c.func, ast.Attribute) and c.func.attr in ("add", "add_many", "extend", "update")
                and isinstance(c.func.value, ast.Attribute) and c.func.value.attr in ("hot_utilities", "cold_utilities")
                and isinstance(c.func.value.value, ast.Name) and c.func.value.value.id == zp]
        hand += [a for a in nodes if isinstance(a, ast.Assign) and any(isinstance(t, ast.Attribute) and t.attr in ("hot_utilities", "cold_utilities", "_hot_utilities", "_cold_utilities")
                                                                      and isinstance(t.value, ast.Name) and t.value.id == zp for t in a.targets)]
        descends = [c for c in nodes if isinstance(c, ast.Call) and isinstance(c.func, ast.Name) and c.func.id == f.name]
        if not hand or not descends:
            continue
        last = max(getattr(x, "lineno", 0) for x in hand + descends)
        for st in f.node.body:
            if st.lineno >= last:
                break
            for x in ast.walk(st):
                if isinstance(x, ast.Return) and not any(x is y for h in hand + descends for y in ast.walk(h)):
                    n += 1
                    cond = ast.unparse(st.test)[:80] if isinstance(st, ast.If) else "unconditionally"
                    ctx.ob(rule, f"{f.qualname}:early-return", f"{f.module.relpath}:{x.lineno}", False,
                           f"{f.name} returns ({cond}) before it has handed the utilities to the zone and descended into its sub-zones: that zone and its whole "
                           f"subtree receive no utility copies")
        # the descent itself: inside the loop over the sub-zones nothing skips a child before the self-call (`if child is X: continue`)
        for loop in [x for x in nodes if isinstance(x, ast.For) and any(d in list(ast.walk(x)) for d in descends)]:
            parent = {}
            for x in ast.walk(loop):
                for ch in ast.iter_child_nodes(x):
                    parent[id(ch)] = x
            for d in [d for d in descends if d in list(ast.walk(loop))]:
                cur, guards = d, []
                while id(cur) in parent and parent[id(cur)] is not loop:
                    par = parent[id(cur)]
                    if isinstance(par, ast.If) and cur is not par.test:
                        guards.append(ast.unparse(par.test)[:60])
                    cur = par
                # statements of the loop body before the one holding the self-call
                top = cur
                for st in loop.body:
                    if st is top:
                        break
                    if isinstance(st, ast.If) and any(isinstance(x, (ast.Continue, ast.Break)) for x in ast.walk(st)):
                        guards.append(f"skip when {ast.unparse(st.test)[:60]}")
                if guards:
                    n += 1
                    ctx.ob(rule, f"{f.qualname}:descent-guard", f"{f.module.relpath}:{d.lineno}", False,
                           f"{f.name} descends into a sub-zone only under a condition ({'; '.join(guards)}): the sub-zones it skips, and everything below them, "
                           f"receive no utility copies")
        if not any(o.rule == rule and o.key.startswith(f.qualname) for o in ctx.obligations):
            n += 1
            ctx.ob(rule, f"{f.qualname}:reaches-every-zone", f.loc, True, "")
    return n

"""Determine various forms of the grand composite curve."""

from typing import Dict

import numpy as np

from ..classes import *
from ..lib import *
from ..utils import *


__all__ = [
    "get_additional_GCCs",
    "get_GCC_without_pockets", 
    "get_GCC_with_partial_pockets", 
    "get_GCC_with_vertical_heat_transfer",
    "get_GCC_needing_utility",
    "get_GGC_pockets",
    "get_seperated_gcc_heat_load_profiles",
]

# TODO: Implement exergy targeting through the exergetic GCC approach. 

#######################################################################################################
# Public API
#######################################################################################################


def get_additional_GCCs(
    pt: ProblemTable,
    do_vert_cc_calc: bool = False,
    do_assisted_ht_calc: bool = False,
) -> ProblemTable:        
    # Calculate various GCC profiles
    get_GCC_without_pockets(pt)
    
    if do_vert_cc_calc:
        pt.update(
            get_GCC_with_vertical_heat_transfer(
                pt.col[PT.H_COLD.value],
                pt.col[PT.H_HOT.value],
                pt.col[PT.H_NET.value],
            )
        )

    if do_assisted_ht_calc:
        pt.update(
            get_GGC_pockets(pt)
        )

    pt.update(
        get_GCC_needing_utility(
            pt.col[PT.H_NET_NP.value]
        )
    )
    pt.update(
        get_seperated_gcc_heat_load_profiles(
            pt.col[PT.H_NET_A.value]
        )
    )
    return pt    


def get_GCC_without_pockets(
    pt: ProblemTable, col_H_NP: str = PT.H_NET_NP.value, col_H: str = PT.H_NET.value
) -> Tuple[ProblemTable, ProblemTable]:
    """Flatten GCC pockets by inserting breakpoints so the profile becomes monotonic."""
    pt.col[col_H_NP] = pt.col[col_H]
    
    hot_pinch_loc, cold_pinch_loc, valid = pt.pinch_idx(col_H)
    if not valid:
        return pt

    # Remove any possible pocket segments between the pinches
    if hot_pinch_loc + 1 < cold_pinch_loc:
        for j in range(hot_pinch_loc + 1, cold_pinch_loc):
            pt.loc[j, col_H_NP] = 0

    # Remove pocket segments above the Pinch
    pt, hot_pinch_loc, cold_pinch_loc = _remove_pockets_on_one_side_of_the_pinch(
        pt, col_H_NP, col_H, hot_pinch_loc, cold_pinch_loc, True
    )

    # Remove pocket segments below the Pinch
    pt, hot_pinch_loc, cold_pinch_loc = _remove_pockets_on_one_side_of_the_pinch(
        pt, col_H_NP, col_H, hot_pinch_loc, cold_pinch_loc, False
    )
    return pt


def get_GCC_with_partial_pockets(
    pt: ProblemTable, dt_cut: float = 10, dt_cut_min: float = 0
) -> ProblemTable:
    """Modify PT in-place to reflect assisted GCC and return the GCC_AI result."""

    # pt.col[PT.H_NET_PK.value] = pt.col[PT.H_NET.value] - pt.col[PT.H_NET_NP.value]

    # if np.sum(pt.col[PT.H_NET_PK.value]) < tol * len(pt):
    #     pt.col[PT.H_NET_AI.value] = pt.col[PT.H_NET.value]
    #     return pt

    # i = len(pt)
    # while i > 0:
    #     if pt.loc[i - 1, PT.H_NET_PK.value] > tol:
    #         i_lb = i
    #         for i in range(i, 0, -1):
    #             if pt.loc[i, PT.H_NET_PK.value] < tol:
    #                 break
    #         i_ub = i
    #         _compute_pocket_temperature_differences

    #     else:
    #         i += 1

    # pt.col[PT.H_NET_AI.value] = pt.col[PT.H_NET.value] - pt.col[PT.H_NET_PK.value]
    return pt

def get_GCC_with_vertical_heat_transfer(
    h_cold: np.ndarray,
    h_hot: np.ndarray,
    h_net: np.ndarray,
) -> Dict[str, np.ndarray]:
    """Return the extreme GCC where heat transfer on the composite curves is vertical."""
    h_cold = np.asarray(h_cold)
    h_hot = np.asarray(h_hot)
    h_net = np.asarray(h_net)

    hcc_max = h_hot[0]
    base = np.where(h_cold > hcc_max, h_cold - hcc_max, 0.0)

    cu_tar = h_net[-1]
    h_net_v = np.where(
        h_hot < cu_tar,
        cu_tar - h_hot,
        base,
    )
    return {PT.H_NET_V.value: h_net_v}


def get_GCC_needing_utility(
    h_net: np.ndarray,
) -> Dict[str, np.ndarray]:
    """Return the actual GCC."""
    return {PT.H_NET_A.value: h_net}


def get_GGC_pockets(pt: ProblemTable) -> Dict[str, np.ndarray]:
    """Store GCC pocket contribution (difference between real and pocket-free profiles)."""
    h_net_pk = np.subtract(pt.col[PT.H_NET.value], pt.col[PT.H_NET_NP.value])
    pt.col[PT.H_NET_PK.value] = h_net_pk
    return {
        PT.H_NET_PK.value: h_net_pk
    }


def get_seperated_gcc_heat_load_profiles(
    H_net,
    rcp_net: np.ndarray = None,
    is_process_stream: bool = True,
) -> Dict[str, np.ndarray]:
    """Determines the net required heating or cooling profile of a system from the GCC."""

    # Calculate ΔH differences
    dh_diff = delta_with_zero_at_start(H_net)

    # Determine whether each row corresponds to a hot-side or cold-side enthalpy change
    if is_process_stream:
        is_hot = dh_diff <= 0
        is_cold = ~is_hot
    else:
        is_cold = dh_diff <= 0
        is_hot = ~is_cold

    # Compute cumulative enthalpy change
    hot_profile = np.cumsum(-dh_diff * is_hot)
    cold_profile = np.cumsum(-dh_diff * is_cold)

    # Handle RCP (HTR x CP)
    if not is_process_stream:
        rcp_hot = rcp_net * is_hot
        rcp_cold = rcp_net * is_cold

    # Normalize hot profile to start at x=0 and cold profile to end at x=0
    if is_process_stream:
        hot_profile *= -1
        hut_max = -cold_profile[-1]
        cold_profile = cold_profile + hut_max
    else:
        cold_profile *= -1
        hut_max = -hot_profile[-1]
        hot_profile = hot_profile + hut_max

    return {
        PT.H_NET_HOT.value: hot_profile,
        PT.H_NET_COLD.value: cold_profile,
    } if is_process_stream else {
        PT.H_HOT_UT.value: hot_profile,
        PT.H_COLD_UT.value: cold_profile,
        PT.RCP_HOT_UT.value: rcp_hot,
        PT.RCP_COLD_UT.value: rcp_cold,        
    }


#######################################################################################################
# Helper functions
#######################################################################################################


def _remove_pockets_on_one_side_of_the_pinch(
    pt: ProblemTable,
    col_H_NP: str = PT.H_NET_NP.value,
    col_H: str = PT.H_NET.value,
    hot_pinch_loc: int = None,
    cold_pinch_loc: int = None,
    is_above_pinch: bool = True,
) -> Tuple[ProblemTable, ProblemTable]:
    """Iteratively eliminate pockets above or below the pinch by flattening enthalpy spans."""

    # Settings for removing pocket segments for above/below the pinch
    if is_above_pinch:
        i = 0
        pinch_loc = hot_pinch_loc
        sgn = 1
    else:
        i = len(pt) - 1
        pinch_loc = cold_pinch_loc
        sgn = -1

    T_vals, H_vals, H_NP_vals = pt.col[PT.T.value], pt.col[col_H], pt.col[col_H_NP]

    if H_vals[i] < tol:
        # No heating or cooling required
        return pt, hot_pinch_loc, cold_pinch_loc

    for _ in range(i, pinch_loc, sgn):
        di = sgn
        n_int_added = 0
        if H_vals[i] < H_vals[i + sgn] - tol:
            i_0 = i
            i = _pocket_exit_index(H_vals, i, pinch_loc, sgn)

            if i != pinch_loc:
                T0 = linear_interpolation(
                    H_vals[i_0], H_vals[i], H_vals[i + sgn], T_vals[i], T_vals[i + sgn]
                )
                n_int_added = pt.insert_temperature_interval(T0)

            if n_int_added > 0:
                T_vals, H_vals, H_NP_vals = (
                    pt.col[PT.T.value],
                    pt.col[col_H],
                    pt.col[col_H_NP],
                )
                if is_above_pinch:
                    hot_pinch_loc += n_int_added
                    cold_pinch_loc += n_int_added
                    pinch_loc += n_int_added
                else:
                    i_0 += n_int_added

            j_rng = range(i_0 + 1, i + 1) if is_above_pinch else range(i + 1, i_0)
            for j in j_rng:
                H_NP_vals[j] = H_vals[i_0]

            di = n_int_added * sgn

        i += di
        if (pinch_loc - i) * sgn <= 0:
            break

    return pt, hot_pinch_loc, cold_pinch_loc


def _pocket_exit_index(H_vals: np.ndarray, i_0: int, pinch_loc: int, sgn: int) -> int:
    """Return index where a pocket terminates when marching in direction ``sgn``."""
    if sgn > 0:
        for i in range(i_0 + 1, pinch_loc + 1):
            if H_vals[i_0] >= H_vals[i] + tol:
                return i - 1
        return pinch_loc
    else:
        for i in range(i_0 - 1, pinch_loc - 1, -1):
            if H_vals[i_0] >= H_vals[i] + tol:
                return i + 1
        return pinch_loc


# def Calc_GCC_AI(z, pt_real, GCC_N):
#     """Returns a simplified array for the assisted integration GCC.
#     """
#     GCC_AI = [ [ None for j in range(len(pt_real[0]))] for i in range(2)]
#     for i in range(len(pt_real[0])):
#         GCC_AI[0][i] = pt_real[0][i]
#         GCC_AI[1][i] = pt_real[PT.H_NET.value][i] - GCC_N[1][i]
#     return GCC_AI

from __future__ import annotations

from typing import Any, Dict, List, Optional, Union, Literal

import numpy as np
from pydantic import BaseModel, ConfigDict, Field

from .enums import MainOptionsPropKeys, StreamType, TurbineOptionsPropKeys

from ..classes.stream_collection import StreamCollection

# ---- Common type aliases -----------------------------------------------------
ScalarOrVU = Union[float, "ValueWithUnit"]
MaybeVU = Union[float, "ValueWithUnit", None]


# ---- Core value types --------------------------------------------------------
class ValueWithUnit(BaseModel):
    """Container storing a magnitude and its associated unit string."""

    value: Optional[float] = Field(
        default=None, description="Numeric value (magnitude)."
    )
    units: str = Field(..., description="Unit string, e.g. 'kW', '°C', 'kJ/s'.")


# ---- Utilities & Pinch temps -------------------------------------------------
class HeatUtility(BaseModel):
    """Report-friendly representation of a utility contribution."""

    name: str
    heat_flow: ScalarOrVU


class TempPinch(BaseModel):
    """Hot and cold pinch temperatures attached to a targeting record."""

    cold_temp: MaybeVU = None
    hot_temp: MaybeVU = None


class HeatPumpTargetInputs(BaseModel):
    """Parameter bundle for heat pump optimisation routines."""

    model_config = ConfigDict(arbitrary_types_allowed=True)

    # Calculated based on the case
    Q_hp_target: float
    Q_amb_max: float
    dt_range_max: float

    # Background process net hot and cold load curves
    T_hot: np.ndarray | list
    H_hot: np.ndarray | list
    T_cold: np.ndarray | list
    H_cold: np.ndarray | list

    # From overall analysis configuration
    n_cond: int
    n_evap: int
    eta_comp: float
    eta_exp: float
    dtcont_hp: float
    dt_hp_ihx: float
    dt_phase_change: float
    price_ratio: float
    is_direct_integration: bool
    is_heat_pumping: bool
    max_multi_start: int
    T_env: float
    dt_env_cont: float
    eta_hp_carnot: float
    eta_he_carnot: float
    refrigerant_ls: List[str]

    # Optional arguments
    dT_sc: Optional[np.ndarray] = None
    dT_sh: Optional[np.ndarray] = None 
    unit_system: Optional[str] = "EUR"
    net_hot_streams: Optional[StreamCollection] = StreamCollection()
    net_cold_streams: Optional[StreamCollection] = StreamCollection()


class HeatPumpTargetOutputs(BaseModel):
    model_config = ConfigDict(
        extra="forbid",
        arbitrary_types_allowed=True,
    )

    # --- Common objective / result fields -------------------------
    utility_tot: float
    work_hp: float
    Q_ext: float
    Q_amb: float    
    cop: float | list | np.ndarray
    obj: float
    opt_success: bool

    hp_hot_streams: Optional["StreamCollection"] = None
    hp_cold_streams: Optional["StreamCollection"] = None
    amb_stream: Optional["StreamCollection"] = None

    # --- Flattened state fields (union of all children) -----------
    # Carnot & Simple Vapour Compression
    T_cond: Optional[np.ndarray] = None
    T_evap: Optional[np.ndarray] = None
    Q_cond: Optional[np.ndarray] = None
    Q_evap: Optional[np.ndarray] = None

    # Simple Vapour Compression only
    dT_sc: Optional[np.ndarray] = None
    dT_sh: Optional[np.ndarray] = None

    # Brayton only
    T_comp_out: Optional[np.ndarray] = None
    dT_gc: Optional[np.ndarray] = None
    dT_comp: Optional[np.ndarray] = None
    Q_heat: Optional[np.ndarray] = None
    Q_cool: Optional[np.ndarray] = None


# ---- Targeting results -------------------------------------------------------
class TargetResults(BaseModel):
    """Summary metrics for a single zone/target returned by the analysis."""

    name: str

    degree_of_integration: MaybeVU = None

    Qh: ScalarOrVU
    Qc: ScalarOrVU
    Qr: ScalarOrVU

    utility_cost: MaybeVU = None
    row_type: Optional[str] = None

    hot_utilities: List[HeatUtility] = Field(default_factory=list)
    cold_utilities: List[HeatUtility] = Field(default_factory=list)

    temp_pinch: TempPinch

    work_target: MaybeVU = None
    turbine_efficiency_target: MaybeVU = None
    area: MaybeVU = None

    num_units: Optional[float] = None
    capital_cost: Optional[float] = None
    total_cost: Optional[float] = None

    exergy_sources: MaybeVU = None
    exergy_sinks: MaybeVU = None
    ETE: Optional[float] = None
    exergy_req_min: MaybeVU = None
    exergy_des_min: MaybeVU = None


# ---- Graphing primitives -----------------------------------------------------
class DataPoint(BaseModel):
    """Coordinate used to construct composite curves and other plots."""

    x: float
    y: float


class Segment(BaseModel):
    """Continuous plot segment optionally annotated with colour/arrows."""

    title: Optional[str] = None
    colour: Optional[int] = Field(
        default=None,
        description="Optional integer colour (e.g., RGB packed int or palette index).",
    )
    arrow: Optional[str] = Field(
        default=None,
        description="Optional arrow style; consider making this an Enum.",
    )
    data_points: List[DataPoint] = Field(default_factory=list)


class Graph(BaseModel):
    """Collection of segments representing a single graph (e.g., GCC)."""

    # Consider making 'type' an Enum (e.g., GCC, CCC, PT, etc.) for safety.
    type: str
    segments: List[Segment] = Field(default_factory=list)

    model_config = ConfigDict(use_enum_values=True)


class GraphSet(BaseModel):
    """Named group of graphs emitted for a particular zone or context."""

    name: str = "GraphSet"
    graphs: List[Graph] = Field(default_factory=list)


# ---- Aggregate response ------------------------------------------------------
class TargetOutput(BaseModel):
    """Top-level payload returned by :func:`OpenPinch.pinch_analysis_service`."""

    name: str = "Site"
    targets: List[TargetResults]
    graphs: Optional[Dict[str, GraphSet]] = None


# ---- Stream & Utility definitions -------------------------------------------
class StreamSchema(BaseModel):
    """Process stream definition supplied to the targeting service."""

    zone: str
    name: str

    t_supply: ScalarOrVU
    t_target: ScalarOrVU
    heat_flow: ScalarOrVU

    dt_cont: ScalarOrVU
    htc: ScalarOrVU

    active: bool = True


class UtilitySchema(BaseModel):
    """Utility definition including thermal and optional economic attributes."""

    name: str
    type: StreamType

    t_supply: ScalarOrVU
    t_target: ScalarOrVU
    heat_flow: Optional[ScalarOrVU] = None

    dt_cont: ScalarOrVU
    htc: ScalarOrVU
    price: ScalarOrVU

    active: bool = True

    model_config = ConfigDict(use_enum_values=True)


# ---- Zone tree ---------------------------------------------------------------
class ZoneTreeSchema(BaseModel):
    """Recursive description of the zone hierarchy for the analysis."""

    name: str
    type: str
    children: Optional[List["ZoneTreeSchema"]] = None


# ---- Options -----------------------------------------------------------------
class TurbineOption(BaseModel):
    """Configure individual turbine properties referenced by key."""

    key: TurbineOptionsPropKeys
    value: Any

    model_config = ConfigDict(use_enum_values=True)


# class Options(BaseModel):
#     """Primary checkbox-style options plus turbine configuration."""

#     main: List[MainOptionsPropKeys] = Field(default_factory=list)
#     # graphs: List[GraphOptionsPropKeys]
#     turbine: List[TurbineOption] = Field(default_factory=list)

#     model_config = ConfigDict(use_enum_values=True)


# ---- Complete request --------------------------------------------------------
class TargetInput(BaseModel):
    """Validated top-level input payload for :func:`OpenPinch.pinch_analysis_service`."""

    streams: List[StreamSchema]
    utilities: List[UtilitySchema] = []
    options: Optional[dict] = None
    zone_tree: Optional[ZoneTreeSchema] = None


# ---- Problem table / TH data (for tests & I/O) -------------------------------
class THSchema(BaseModel):
    T: List[float]
    H_hot: Optional[List[float]] = None
    H_cold: Optional[List[float]] = None
    H_net: Optional[List[float]] = None
    H_hot_net: Optional[List[float]] = None
    H_cold_net: Optional[List[float]] = None


class ProblemTableDataSchema(BaseModel):
    name: str
    data: THSchema


class GetInputOutputData(BaseModel):
    plant_profile_data: List[ProblemTableDataSchema]
    streams: List[StreamSchema]
    utilities: List[UtilitySchema] = Field(default_factory=list)
    options: Optional[dict] = {}


# ---- Linearisation schema ---------------------------------------------------


class NonLinearStream(BaseModel):
    t_supply: float
    t_target: float
    p_supply: float
    p_target: float
    h_supply: float
    h_target: float
    composition: list[tuple[str, float]]


class LineariseInput(BaseModel):
    t_h_data: List
    num_intervals: Optional[int] = 100
    t_min: Optional[float] = 1
    streams: List[NonLinearStream]
    ppKey: str = ""
    mole_flow: float = 1.0


class LineariseOutput(BaseModel):
    streams: List[Optional[list]]


# ---- Visualisation schema ---------------------------------------------------


class VisualiseInput(BaseModel):
    zones: list


class VisualiseOutput(BaseModel):
    graphs: List[GraphSet]

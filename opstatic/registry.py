"""Registry of claimed checks and declined properties (source of MANIFEST.json)."""

CLAIMED = {
    "C20": {
        "category": "other",
        "technique": "static analysis: abstract evaluation of the arrangement if/elif chains over the complete finite domain member x {member,text}; dominance of a raising guard before the logarithm"
                     ' Also PURE: no function of the module writes module-level state (memo tables).',
        "text": "Decides the label-form clause of C20 exhaustively (8 arrangements x 2 label forms x 2 directions, plus sibling coverage) "
                "and that compute_LMTD_from_dts refuses non-positive differences before taking the logarithm. Holds for every input because "
                "the label domain is finite and the rest is control-flow shape.",
        "design_ref": "DESIGN.md 3.2 DISPATCH",
        "note": "Structural clause only: the eps-NTU formulas, monotonicity, bounds and inverse accuracy are numeric and NOT decided. "
                "Trusted: CPython ast; Enum equality semantics (plain Enum member != its value).",
    },
    "C19": {
        "category": "other",
        "technique": "static analysis: class-local forward dataflow (cache-invalid / fresh facts over a powerset domain), who-may-store rule on the member map, "
                     "derived-field dependency table and refresh obligation per base-field writer, linear-form check of the shift direction, order facts for the hot/cold helper guards"
                     ' Also: concatenation feeds from both operands (WHO-CONCAT); nobody in the package switches overwrite prevention off.',
        "text": "Decides for every method of StreamCollection that a member write leaves the sort cache invalid on every normal exit and that every cache read is "
                "dominated by the recompute; that only the renaming insert stores into the member map; and for Stream that every writer of a base field "
                "(temperatures, duty, contribution, coefficient) refreshes every derived field that depends on it, the shift direction matches the stream kind, "
                "and the hot/cold bound helpers are only reached under the matching supply/target order. All operation sequences are covered because each fact is "
                "established per method for arbitrary entry state.",
        "design_ref": "DESIGN.md 3.2 MEMO, DERIVED + WHO",
        "note": "Structural clauses only: the recomputation formulas (CP = Q/dT, htr = 1/htc) and numeric equality are NOT decided. "
                "Direct assignment of derived attributes (CP, t_min, ...) by a caller is outside the property's quantifier.",
    },
    "C16": {
        "category": "other",
        "technique": "static analysis: None-guard memo invalidation dataflow on PinchProblem; DataFrame-typed call sites checked against the installed pandas attribute table; "
                     "string-length abstract interpretation (linear upper-bound terms) proving sheet names <= 31 for all names, uniqueness discipline and sanitiser "
                     "character class (re._parser); reader column tables vs schema required fields; sibling-reader helper agreement"
                     ' MEMO-CACHE: the result is recomputed only behind a None guard.',
        "text": "Decides the structural clauses of C16: every path of PinchProblem.load that stores a new problem leaves the cached result reset (all load/target "
                "histories); the CSV/workbook readers only call DataFrame methods that exist in the installed pandas; exported sheet names are at most 31 characters, "
                "free of forbidden characters and unique within a workbook for ALL zone/target names (a proof over symbolic string lengths, not a sample); "
                "the reader column tables cover every required schema field and both readers share the record helpers.",
        "design_ref": "DESIGN.md 3.2 MEMO, API, BOUND, TABLE T5",
        "note": "Numeric equality of targets across channels is NOT decided; label normalisation of individual cells (whitespace, digits) is data-dependent and NOT decided. "
                "Trusted: CPython ast, re._parser, the installed pandas attribute table.",
    },
    "C11": {
        "category": "other",
        "technique": "static analysis: interprocedural parameter-effect summaries (mutates / escapes) for mutable defaults; module- and class-level state write scan over the "
                     "service call-graph cone; flow-sensitive may-alias ownership taint (caller-owned / fresh container of owned elements / fresh) from the service and wrapper entry "
                     "parameters with field-sensitive heap summary",
        "text": "Decides C11 by proving the ABSENCE of every construct that can carry state from one call to the next or write into the caller's object: "
                "(E1) no mutable default argument is mutated or escapes; (E2) no function reachable from the service writes module-level or class-level state; "
                "(E3) no attribute store, container store or mutating call reaches an object owned by the caller - the deep copy at the service entry cuts the taint, "
                "and the rule fires as soon as it is removed, made conditional or made shallow. Absence of a construct holds for all call histories at once.",
        "design_ref": "DESIGN.md 3.2 EFFECT",
        "note": "Assumes numpy / pydantic / CoolProp are deterministic and keep no cross-call state that affects results; bit-exact equality with a fresh interpreter is not decided. "
                "Declared exceptions (one symbol each, with reason, in rules/effect.py): StreamCollection sort cache fields, utils.decorators timing counters/logger, classes.value.ureg.",
    },
    "C05": {
        "category": "other",
        "technique": "static analysis: context-sensitive abstract interpretation with a two-point temperature-scale type (shifted/real) on tables, temperature columns and "
                     "stream-bound arrays; boolean scale flags propagated as constants from the pipeline roots, defaults applied to omitted arguments; row-insert view typestate",
        "text": "Decides the scale-coherence clause of C05 on every call chain from the direct and indirect integration entry functions: no comparison or subtraction relates "
                "a shifted-scale temperature to a real-scale one (so the stream activity test of each table uses the bounds of that table's own scale), the table in the real "
                "role is real and the other shifted, and the graph slices named 'Shifted X' / X come from the matching table. The report names the call chain and flag context.",
        "design_ref": "DESIGN.md 3.2 SCALE, INVAL",
        "note": "Structural clause only: per-row enthalpy integrals, the cold-curve offset, tolerances and rounding are numeric and NOT decided. "
                "Assumes scale flags are plain boolean parameters/constants (they are on the pinned tree); operand pairs with unknown scale are counted in the evidence, not guessed.",
    },
    "C07": {
        "category": "other",
        "technique": "static analysis: typestate of column views and row indices across buffer-replacing table methods (derived from the table class), bottom-up may-insert "
                     "summaries over the call graph, path-sensitive on the insertion count (n == 0 keeps views valid), guard-aware copy-coherence (contradiction) rule for rebased indices"
                     ' Also: stale derived index values (I4), source GCC column read-only (SRC-RO), mirrored direction branches (MIRROR), insertion count = buffer growth (COUNT).',
        "text": "Decides the index/view bookkeeping clause of C07 for any number of insertions: in the pocket sweep and all its callers no column view is used after a row "
                "insertion without re-fetching (I1), row indices handed to a callee that may insert are re-bound from its result (I2), and when the code rebases one alias of "
                "a row index by the inserted-row count every live alias is rebased too (I3) - the defect that made the sweep stop early with two or more insertions above the pinch.",
        "design_ref": "DESIGN.md 3.2 INVAL",
        "note": "Structural clause only: the flattened values, the interpolated closing temperature, tolerance side and range end points are numeric and NOT decided. "
                "Trusted: numpy view semantics; ProblemTable methods that assign self.data are the only buffer-replacing operations (derived on every run).",
    },
    "C14": {
        "category": "other",
        "technique": "static analysis: must-define-before-use of the per-zone target registry by symbolic exploration of the zone-type handlers over all option-flag "
                     "assignments and child zone types (greatest fix-point for recursive handlers), requirements derived from the entry functions' own bodies; "
                     "typed attribute-existence check on Configuration; handler-table exhaustiveness and label-form agreement"
                     ' Also: column define-before-use on every option path with context-sensitive must-write summaries (COLDEF), handler consistency of the nested zone-type dispatch with the handler table (ORDER-DISPATCH), loop-variable discipline of sub-zone loops (LOOPVAR), strict division guards (DIV-GUARD).',
        "text": "Decides three totality clauses of C14 for all option combinations and zone trees: (ORDER) no path through the handlers reads a target record before it was "
                "stored; (ATTR) every option attribute the pipeline reads exists on Configuration; (T4) every root zone type that preparation produces has a handler keyed in "
                "the form the lookup uses, and zone identifiers are only compared with the text form. Six genuine violations of the pinned tree are recorded as known findings "
                "(reproduced by findings/C14_repro.py); any other violation is reported.",
        "design_ref": "DESIGN.md 3.2 ORDER, ATTR, TABLE T4",
        "note": "Finite numbers, schema validity of the output, JSON serialisability, temperature envelopes and the numeric DO_AREA_TARGETING failure are NOT decided. "
                "Options are modelled as free booleans; handler bodies must stay within the statement forms the explorer understands (else ANALYSIS-ERROR).",
    },
    "C08": {
        "category": "other",
        "technique": "static analysis: writer/reader table agreement - every cumulative column label written anywhere in the package is a member of the interpolation table; "
                     "no duplicate entries; CP/dH pairing table checked against the label enumeration"
                     ' Also COUNT: the returned insertion count is the quantity the buffer grew by (alias-following).',
        "text": "Decides the table clause behind 'inserting temperature intervals never changes any curve': a cumulative column that some function writes but the "
                "interpolation table omits is copied or zeroed in inserted rows, for every later insertion in the pipeline. The check enumerates all column writes "
                "(subscript stores and dict literals keyed by ProblemTableLabel) and the two module tables on every run.",
        "design_ref": "DESIGN.md 3.2 TABLE T1/T2",
        "note": "Necessary condition only. Interpolation arithmetic, ordering and de-duplication within tolerance, and the interval-width bookkeeping of rebuilt rows are numeric "
                "and NOT decided; in particular the off-centre interval-width behaviour named in the property is not detected by this check.",
    },
    "C13": {
        "category": "other",
        "technique": "static analysis: graph-type producer/consumer table agreement (tested key = key argument = subscript; requested columns subset of sliced columns; "
                     "parallel literal lists of equal length; sibling consumers agree on per-series flags) and traversal parity between the record report and the graph-set builder"
                     ' Traversal rule follows helper functions and rejects sub-zone recursion guarded by anything other than the sub-zones themselves.',
        "text": "Decides the structural clause 'each target record has exactly one graph set, keyed by its own name, with the documented graph types, each graph reading the "
                "columns that were stored for it': for every graph type the builder renders, the key it tests, the key it emits and the table slice it reads agree, the "
                "columns exist in every producer's slice, and both traversals visit every target of every zone.",
        "design_ref": "DESIGN.md 3.2 TABLE T3, TRAV",
        "note": "That emitted points lie on the curves, the collinear-point pruning, end trimming and the sign classification of segments are numeric and NOT decided. "
                "Distinctness of record names across equally named zones is data-dependent and not decided.",
    },
    "C10": {
        "category": "other",
        "technique": "static analysis: ownership rule on every insertion into / assignment to a zone's utility collections in the service cone (value must be a copy.deepcopy "
                     "evaluated in the per-zone function or a fresh empty collection); summation / netting helpers must work on deep copies",
        "text": "Decides the ownership sentence of C10 ('every zone receives its own independent copy of every utility'): shallow copies, hoisted copies, shared collections "
                "and accumulation on the originals are reported at the inserting statement. Holds for every zone tree because it is a property of the only code that populates "
                "those collections.",
        "design_ref": "DESIGN.md 3.2 OWN",
        "note": "Stream-to-zone conservation (no stream dropped, duplicated or shared between siblings) depends on label matching at run time and is NOT decided.",
    },
    "C17": {
        "category": "other",
        "technique": "static analysis: installed-library contract (numpy.cross on 2-vectors, module attribute tables) against provable 2-column operands (row-width facts propagated "
                     "through resolved calls); structural invariant of the keep-mask in the split-and-keep simplifier; boolean-flag threading",
        "text": "Decides that the polyline simplifier cannot fail on 2-column curves under the installed numpy, that both end points are kept and order is preserved for "
                "every input (mask starts all-true and is only cleared on the open interior of popped pairs), and that the hot/cold orientation flag reaches the one-sided refinement.",
        "design_ref": "DESIGN.md 3.2 API, MASK",
        "note": "The deviation bounds (1e-6 for redundant-point removal, requested maximum deviation, one-sided tenth) are numeric / SLSQP results and NOT decided.",
    },
    "C18": {
        "category": "other",
        "technique": "static analysis: effect analysis of the cycle classes - fields written transitively by solve vs. fields assigned by anything reachable from a public query "
                     "method (including nested functions); must-update-before-read dataflow for the scratch property object on the query side",
        "text": "Decides the order-independence clause of C18: no query (stream-set builders, profile builders, properties) assigns instance state, so no request can change what "
                "a later request returns, for every order of requests after solving; the scratch CoolProp state is re-updated in a query before it is read there.",
        "design_ref": "DESIGN.md 3.2 QEFFECT",
        "note": "First/second-law balances, COP relations, saturation pressures and the duties carried by the emitted streams come from CoolProp numerics and are NOT decided.",
    },
    "C02": {
        "category": "other",
        "technique": "static analysis: interprocedural witness-value analysis of index / slice-start expressions (negative wrap-around), pairing rules on the generation/use "
                     "matching, same-source rule for the site's hot/cold targets, accumulator discipline of the zone summation, argument/parameter name agreement"
                     ' Also: producer/consumer filter agreement for the default-utility decision (DEFAULT-FILTER).',
        "text": "Decides necessary bookkeeping conditions of the first-law balance of every record: the cold-side search window cannot wrap around when the pinch is the first "
                "row (the defect that zeroed total-site Qc), generation/use matching removes one common min()-bounded duty from both sides, the total-site Qh and Qc are the two "
                "ends of one cascade column, every zone total is initialised once and fed exactly once per sub-zone from the same-named attribute, and target values are not "
                "permuted on their way into the record.",
        "design_ref": "DESIGN.md 3.2 WRAP, PAIR / ACC",
        "note": "The balance identity itself (Qh - Qc = cold duty - hot duty, Qr, non-negativity) is numeric and NOT decided; these are necessary structural conditions only. "
                "WRAP reports only witnessed negative values; index sites without a witness are counted as undecided in the evidence.",
    },
    "C03": {
        "category": "other",
        "technique": "static analysis: witness-value analysis for wrap-around of the per-side segment selection; booking rule (every assigned duty added to the running total "
                     "in the same block, early exit tests that total); index-aligned per-utility zone sums; argument/parameter name agreement"
                     ' Also: DEFAULT-FILTER (utilities that suppress a default are the ones that get instantiated), SEED (utility streams start with zero duty).',
        "text": "Decides that the per-side segment handed to the allocator cannot wrap, that every duty given to a utility is booked against the side's target before the next "
                "level is sized (nothing double counted or forgotten), and that the total-process record adds each utility's zone duties index by index.",
        "design_ref": "DESIGN.md 3.2 WRAP, PAIR / ACC",
        "note": "Reachability of process temperatures by a utility, default-utility placement, the values of the pocket-free profile and the sums themselves are numeric and NOT decided.",
    },
    "C06": {
        "category": "other",
        "technique": "static analysis: hot/cold role flow along the def-use chain of pinch rows and temperatures (tuple pack/unpack against callee returns, positional and keyword "
                     "arguments, record dictionaries, property getter/setter fields, boolean side flags), roles read from identifiers",
        "text": "Decides that hot and cold pinch are never swapped between detection (pinch_idx), conversion to temperatures, the entry functions, the target record and the "
                "serialised temp_pinch entry - a swap is invisible to the existing suite, which never compares pinch temperatures.",
        "design_ref": "DESIGN.md 3.2 ROLE",
        "note": "Which rows are selected (tolerance mask, first/last zero, threshold runs) is numeric and NOT decided. Roles are read from identifiers containing hot/cold.",
    },
    "C09": {
        "category": "other",
        "technique": "static analysis: accumulator discipline of the zone summation (initialised outside the loop, fed exactly once per sub-zone with the same-named attribute "
                     "of the sub-zone's direct-integration record), index-aligned per-utility sums, summation on deep copies, argument/parameter name agreement"
                     ' Also: zero-seeded utilities (SEED) and fresh destination collections under every flag assignment of the sub-zone import (FRESH-DST).',
        "text": "Decides the additivity sentence of C09: the total-process record is the sum of its zones' direct-integration targets value by value and utility by utility, "
                "computed on private copies so the zones' own utilities are not overwritten.",
        "design_ref": "DESIGN.md 3.2 ACC, OWN",
        "note": "The bracketing inequalities (total site <= sum of zones, >= site direct integration) and the recovery identity are numeric and NOT decided.",
    },
}

_NOT_BUILT = "claimed in DESIGN.md but the check is not built yet in this round"

CLAIMED.update({
    "C01": {
        "category": "other",
        "technique": "static analysis: derived-field dependency table and refresh obligation per base-field writer of Stream, linear-form check of the shift direction, "
                     "context-sensitive two-point temperature-scale typing of both problem tables, same-source rule for the two ends of the cascade column, "
                     "and the repository-wide disciplines over the anchored modules (TRUTHY: no temperature/duty tested by truthiness; MEMO-KEY/MEMO-DEP; ARG-TYPE)",
        "text": "Decides structural necessary conditions of C01, for every input because each is a fact about every path of the code: every writer of a stream's base "
                "fields refreshes its shifted bounds, which move down for hot and up for cold streams; the shifted table is only ever built from shifted bounds and the real "
                "table from real bounds; Qh and Qc are the first and last row of one cascade column; a stream or utility at 0 degC or with a zero duty is not dropped as 'missing'.",
        "design_ref": "DESIGN.md 3.3 C01",
        "note": "PART of the property only. The equality of the reported targets with an exact cascade (interval-activity window, 6-decimal rounding, cumulative sums, "
                "min(H_net)=0 shift) is arithmetic and NOT decided; a changed tolerance, comparison side or formula in the cascade is not detected.",
    },
    "C04": {
        "category": "other",
        "technique": "static analysis: interprocedural witness-value analysis of the per-side segment start (no negative wrap-around), booking rule of the allocator "
                     "(every assigned duty added to the running total the early exit tests), zero-seeded utilities and producer/consumer filter agreement of the default-utility "
                     "decision, row-index / column-view typestate across row insertion in the pocket sweep that produces the allocator's input; TRUTHY, MEMO-*, ARG-TYPE over the anchored modules",
        "text": "Decides bookkeeping necessary conditions of C04 on every path: the segment of the pocket-free curve handed to the allocator cannot wrap to the other end of the "
                "table; every duty the allocator assigns is counted; no utility enters the allocation carrying a duty; the pocket-free curve is built with row indices and column "
                "views that are re-based after every row insertion.",
        "design_ref": "DESIGN.md 3.3 C04",
        "note": "PART of the property only. Feasibility (utility GCC between zero and the pocket-free GCC), the slope/supply-limited bounds, the ordering of the utility ladder "
                "and optimality of each duty are inequalities over computed arrays and NOT decided.",
    },
    "C12": {
        "category": "other",
        "technique": "static analysis: taint of input stream records into every keep-one-per-key construct (identity keys only), who-may-store rule on the collection's member map, "
                     "dirty-flag sort-cache dataflow (iteration is sorted on every path), witness-value wrap analysis of the side-specific segment selection, mirrored-branch "
                     "comparison of the pocket sweep, TRUTHY / MEMO-* / ARG-TYPE over the anchored modules",
        "text": "Decides structural necessary conditions of C12: parallel branches and split streams (distinct records with equal labels) are never merged; a temperature that a "
                "uniform translation puts on 0 is not read as missing; neither side's segment selection wraps (the mirror image of a problem takes the other side's code path); "
                "the two direction branches of the pocket sweep are mirror images; collections iterate in sorted order whatever the insertion order.",
        "design_ref": "DESIGN.md 3.3 C12",
        "note": "PART of the property only. The relation between two runs on transformed inputs is decided at run time by absolute tolerances, sort stability for equal keys "
                "and floating-point summation order; none of that is decided here.",
    },
    "C15": {
        "category": "other",
        "technique": "static analysis: column must-write-before-read summaries on every option path into the area routines (context-sensitive on option flags), dominance of a "
                     "raising guard before the LMTD logarithm, module-state write scan and cache-key completeness of the cost / exchanger helpers, strict division guards; "
                     "TRUTHY / MEMO-* / ARG-TYPE over the anchored modules",
        "text": "Decides structural necessary conditions of C15: whenever area targeting runs, every balanced-curve and resistance column it reads was written on that option "
                "path; the LMTD helper raises for non-positive end differences instead of returning a negative or complex value; cost and exchanger helpers are free of "
                "module-level memo state (a result cannot depend on an earlier call).",
        "design_ref": "DESIGN.md 3.3 C15",
        "note": "PART of the property only. The area integral, plateau handling, the cost law and the annualisation factor are arithmetic and NOT decided.",
    },
})


_GENERIC = (" Plus the repository-wide disciplines over the modules the property is anchored in: TRUTHY (no temperature / duty / pinch / row index tested by "
            "truthiness), MEMO-KEY / MEMO-DEP / RECOMPUTE (cache keys complete and raw, memo dependencies invalidatable, registry never used as a cache), "
            "ARG-TYPE (flag vs number across resolved calls).")
for _p in ("C02", "C03", "C05", "C06", "C07", "C08", "C09", "C10", "C13", "C16", "C17", "C18", "C19", "C20"):
    if "TRUTHY" not in CLAIMED[_p]["technique"]:
        CLAIMED[_p]["technique"] += _GENERIC
for _p in ("C01", "C15", "C19"):
    CLAIMED[_p]["technique"] += (" DERIVED-SEQ: may-stale dataflow over (derived field, source field) pairs inside each Stream method, helpers inlined - a derived field is "
                                 "never left computed from a source the same method rewrites afterwards.")
for _p in ("C01", "C06", "C14"):
    CLAIMED[_p]["technique"] += (" OFFSET-FREE: cone scan (function, resolved callees, referenced module tables and lambdas) of the value extractor shared by absolute "
                                 "temperatures and the temperature difference dt_cont - no additive constant may be applied to the extracted value.")
CLAIMED["C07"]["technique"] += (" COL-CACHE: an `if` never decides from the contents of column K whether the routine that must-writes K runs "
                                 "(must-write summaries with column parameters resolved per call).")
for _p in CLAIMED:
    CLAIMED[_p]["technique"] += " ZERO-CMP: syntax-tree scan of the anchored modules - no absolute temperature (scalar, array, table column) is compared with the literal 0."
for _p in ("C01", "C15", "C19"):
    CLAIMED[_p]["technique"] += (" DERIVED-SIB: sibling cross-check of the base-field property setters - each ends in the class's full recompute on its straight-line spine "
                                 "(majority convention derived from the class; a partial helper is not the recompute).")
for _p in ("C03", "C04", "C07"):
    CLAIMED[_p]["technique"] += (" COUNT-GUARD: control-dependence scan in the row-inserting sweep - no store into table contents under a test of the insertion count.")
for _p in ("C12", "C19"):
    CLAIMED[_p]["technique"] += " WHO-ALWAYS: the renaming insert has no early return decided by a look at the members already stored."
CLAIMED["C11"]["technique"] += " E3 roots include the raw-input parameter of every pydantic before-validator; pop/setdefault on a caller-owned container are sinks."
for _p in CLAIMED:
    CLAIMED[_p]["technique"] += " MEMO-PARAM: no result computed from a parameter object is parked on that object behind an emptiness test unless its class has a dropper."
CLAIMED["C10"]["technique"] += " DEDUP-ID: taint of input stream records into every keep-one-per-key construct (identity keys only)."

NOT_APPLICABLE = {
}
for _p in ["C02", "C03", "C05", "C06", "C07", "C08", "C09", "C10", "C11", "C13", "C14", "C16", "C17", "C18", "C19"]:
    NOT_APPLICABLE.setdefault(_p, _NOT_BUILT)
for _p in CLAIMED:
    NOT_APPLICABLE.pop(_p, None)
